//! K-spec: `spec_util::from_yaml_str` against the model's `build`.
//!
//! Documents are rendered from generated well-formed specs (type-directed), with sub-trees hoisted into `typeDef`s of
//! enclosing subs (referenced before or after their textual position, shadowed in inner subs, chained), random key
//! order and explicit / implicit `type: sub`; plus single-rule violations of such documents and attribute soups.
//! The text goes through the real `from_yaml_str`; the same text parsed by serde_yaml is what the model reads.
use crate::enc::*;
use crate::gen::*;
use crate::util::*;
use cambrian::{spec, spec_util};
use serde_json::{json, Value as J};
use serde_yaml::{Mapping, Value as Y};

fn ys(s: &str) -> Y { Y::String(s.to_string()) }
fn yf(x: f64) -> Y { Y::Number(serde_yaml::Number::from(x)) }
fn yi(x: i64) -> Y { Y::Number(serde_yaml::Number::from(x)) }
fn yu(x: u64) -> Y { Y::Number(serde_yaml::Number::from(x)) }

const TYPE_NAMES: &[&str] = &["T", "U", "pair", "my type", "Real", "typeDef", "x"];

/// one type definition in scope while rendering
#[derive(Clone)]
struct Def { name: String, node: spec::Node }

fn shuffle<T>(rng: &mut Rng, v: &mut Vec<T>) { for i in (1..v.len()).rev() { let j = rng.below(i as u64 + 1) as usize; v.swap(i, j); } }

fn render_real(rng: &mut Rng, x: f64) -> Y {
    // integers written as integers sometimes (serde_yaml answers as_f64 for them too)
    if x.fract() == 0.0 && x.abs() < 1e15 && rng.chance(1, 3) { yi(x as i64) } else { yf(x) }
}

/// Render `node`; `scope` holds the definitions visible here (innermost last).  A node equal to a visible
/// definition may be written as a reference to it (only when the name resolves to exactly that definition).
fn render(rng: &mut Rng, node: &spec::Node, scope: &Vec<Def>, depth: u32) -> Y {
    // reference to a definition in scope?
    if rng.chance(1, 2) {
        for d in scope.iter().rev() {
            // the innermost definition of a name wins: only usable if no later definition shadows it
            let resolves = scope.iter().rev().find(|e| e.name == d.name).map(|e| e.node == d.node).unwrap_or(false);
            if d.node == *node && resolves {
                let mut m = Mapping::new();
                m.insert(ys("type"), ys(&d.name));
                return Y::Mapping(m);
            }
        }
    }
    let mut entries: Vec<(Y, Y)> = Vec::new();
    match node {
        spec::Node::Real { init, scale, min, max } => {
            entries.push((ys("type"), ys("real")));
            entries.push((ys("init"), render_real(rng, *init)));
            entries.push((ys("scale"), render_real(rng, *scale)));
            if let Some(m) = min { entries.push((ys("min"), render_real(rng, *m))); }
            if let Some(m) = max { entries.push((ys("max"), render_real(rng, *m))); }
        }
        spec::Node::Int { init, scale, min, max } => {
            entries.push((ys("type"), ys("int")));
            entries.push((ys("init"), yi(*init)));
            entries.push((ys("scale"), render_real(rng, *scale)));
            if let Some(m) = min { entries.push((ys("min"), yi(*m))); }
            if let Some(m) = max { entries.push((ys("max"), yi(*m))); }
        }
        spec::Node::Bool { init } => { entries.push((ys("type"), ys("bool"))); entries.push((ys("init"), Y::Bool(*init))); }
        spec::Node::Enum { values, init } => {
            entries.push((ys("type"), ys("enum")));
            entries.push((ys("init"), ys(init)));
            entries.push((ys("values"), Y::Sequence(values.iter().map(|v| ys(v)).collect())));
        }
        spec::Node::Const => { entries.push((ys("type"), ys("const"))); }
        spec::Node::Array { value_type, size } => {
            entries.push((ys("type"), ys("array")));
            entries.push((ys("size"), yu(*size as u64)));
            entries.push((ys("valueType"), render(rng, value_type, scope, depth + 1)));
        }
        spec::Node::AnonMap { value_type, init_size, min_size, max_size } => {
            entries.push((ys("type"), ys("anon map")));
            entries.push((ys("initSize"), yu(*init_size as u64)));
            if let Some(m) = min_size { entries.push((ys("minSize"), yu(*m as u64))); }
            if let Some(m) = max_size { entries.push((ys("maxSize"), yu(*m as u64))); }
            entries.push((ys("valueType"), render(rng, value_type, scope, depth + 1)));
        }
        spec::Node::Optional { value_type, init_present } => {
            entries.push((ys("type"), ys("optional")));
            entries.push((ys("initPresent"), Y::Bool(*init_present)));
            entries.push((ys("valueType"), render(rng, value_type, scope, depth + 1)));
        }
        spec::Node::Variant { map, init } => {
            entries.push((ys("type"), ys("variant")));
            entries.push((ys("init"), ys(init)));
            let mut ks: Vec<&String> = map.keys().collect();
            ks.sort();
            for k in ks { entries.push((ys(k), render(rng, &map[k], scope, depth + 1))); }
        }
        spec::Node::Sub { map } => {
            if rng.chance(1, 2) { entries.push((ys("type"), ys("sub"))); }
            // choose definitions for this sub: sub-trees of the members (hoisted), plus decoys that shadow outer names
            let mut local: Vec<Def> = Vec::new();
            let mut candidates: Vec<spec::Node> = Vec::new();
            for v in map.values() { collect_subtrees(v, &mut candidates, 0); }
            shuffle(rng, &mut candidates);
            let n_defs = rng.below(4) as usize;
            for c in candidates.into_iter().take(n_defs) {
                let name = if rng.chance(1, 3) && !scope.is_empty() { scope[rng.below(scope.len() as u64) as usize].name.clone() } else { rng.pick(TYPE_NAMES).to_string() };
                if local.iter().any(|d| d.name == name) { continue; }
                local.push(Def { name, node: c });
            }
            if rng.chance(1, 5) && !scope.is_empty() {
                // a decoy: shadows an outer name with something else
                let name = scope[rng.below(scope.len() as u64) as usize].name.clone();
                if !local.iter().any(|d| d.name == name) { local.push(Def { name, node: spec::Node::Bool { init: rng.chance(1, 2) } }); }
            }
            // definitions are processed in document order; each body sees the outer scope and the earlier ones
            let mut def_entries: Vec<(Y, Y)> = Vec::new();
            let mut inner_scope = scope.clone();
            for d in &local {
                let body = render(rng, &d.node, &inner_scope, depth + 1);
                def_entries.push((ys(&format!("typeDef {}", d.name)), body));
                inner_scope.push(d.clone());
            }
            // members see all definitions of this sub
            let mut member_entries: Vec<(Y, Y)> = Vec::new();
            let mut ks: Vec<&String> = map.keys().collect();
            ks.sort();
            for k in ks { member_entries.push((ys(k), render(rng, &map[k], &inner_scope, depth + 1))); }
            // interleave: definitions keep their relative order, members go anywhere
            let mut all: Vec<(Y, Y)> = Vec::new();
            shuffle(rng, &mut member_entries);
            let (mut di, mut mi) = (0, 0);
            while di < def_entries.len() || mi < member_entries.len() {
                let take_def = di < def_entries.len() && (mi >= member_entries.len() || rng.chance(1, 2));
                if take_def { all.push(def_entries[di].clone()); di += 1; } else { all.push(member_entries[mi].clone()); mi += 1; }
            }
            let pos = if entries.is_empty() { 0 } else { rng.below(all.len() as u64 + 1) as usize };
            for e in entries.drain(..) { all.insert(pos.min(all.len()), e); }
            let mut m = Mapping::new();
            for (k, v) in all { m.insert(k, v); }
            return Y::Mapping(m);
        }
    }
    if !matches!(node, spec::Node::Variant { .. }) || rng.chance(1, 2) { shuffle(rng, &mut entries); }
    let mut m = Mapping::new();
    for (k, v) in entries { m.insert(k, v); }
    Y::Mapping(m)
}

fn collect_subtrees(n: &spec::Node, out: &mut Vec<spec::Node>, depth: u32) {
    if depth > 3 { return; }
    out.push(n.clone());
    match n {
        spec::Node::Sub { map } | spec::Node::Variant { map, .. } => { for v in map.values() { collect_subtrees(v, out, depth + 1); } }
        spec::Node::Array { value_type, .. } | spec::Node::AnonMap { value_type, .. } | spec::Node::Optional { value_type, .. } => collect_subtrees(value_type, out, depth + 1),
        _ => {}
    }
}

/// member names the renderer can write as plain keys of a sub / variant
fn keys_ok(n: &spec::Node) -> bool {
    match n {
        spec::Node::Sub { map } => map.keys().all(|k| k != "type" && !k.starts_with("typeDef ")) && map.values().all(|v| keys_ok(v)),
        spec::Node::Variant { map, .. } => map.keys().all(|k| k != "type" && k != "init") && map.values().all(|v| keys_ok(v)),
        spec::Node::Array { value_type, .. } | spec::Node::AnonMap { value_type, .. } | spec::Node::Optional { value_type, .. } => keys_ok(value_type),
        _ => true,
    }
}

fn all_mappings<'a>(y: &'a mut Y, out: &mut Vec<*mut Mapping>) {
    match y {
        Y::Mapping(m) => {
            out.push(m as *mut Mapping);
            for (_, v) in m.iter_mut() { all_mappings(v, out); }
        }
        Y::Sequence(s) => { for v in s.iter_mut() { all_mappings(v, out); } }
        _ => {}
    }
}

/// break exactly one rule somewhere in the document; returns the name of the rule
fn violate(rng: &mut Rng, doc: &mut Y) -> &'static str {
    let mut maps: Vec<*mut Mapping> = Vec::new();
    all_mappings(doc, &mut maps);
    if maps.is_empty() { *doc = ys("not a map"); return "root-not-map"; }
    for _ in 0..20 {
        // SAFETY: the pointers come from a traversal of `doc`, which is not otherwise touched while one of them is used
        let idx = rng.below(maps.len() as u64) as usize;
        let m: &mut Mapping = unsafe { &mut *maps[idx] };
        let ty = m.get("type").and_then(|t| t.as_str()).unwrap_or("sub").to_string();
        let pick = rng.below(12);
        match (ty.as_str(), pick) {
            (_, 0) if ty != "sub" && ty != "variant" => { m.insert(ys("zzUnexpected"), yi(1)); return "unexpected-attribute"; }
            (_, 1) => { m.insert(yi(7), yi(1)); return "non-string-key"; }
            ("real", 2) | ("int", 2) => { m.remove("init"); return "missing-init"; }
            ("real", 3) | ("int", 3) => { m.remove("scale"); return "missing-scale"; }
            ("real", 4) | ("int", 4) => { m.insert(ys("scale"), if rng.chance(1, 2) { yf(0.0) } else { yf(-1.5) }); return "scale-not-positive"; }
            ("real", 5) => { m.insert(ys(*rng.pick(&["init", "min", "max", "scale"])), yf(*rng.pick(&[f64::INFINITY, f64::NEG_INFINITY, f64::NAN]))); return "non-finite-number"; }
            ("int", 5) => { m.insert(ys("scale"), yf(*rng.pick(&[f64::INFINITY, f64::NAN]))); return "non-finite-number"; }
            ("real", 6) => { let v = m.get("init").and_then(|x| x.as_f64()).unwrap_or(0.0); m.insert(ys("min"), yf(v + 1.0 + v.abs())); m.remove("max"); return "init-below-min"; }
            ("real", 7) => {
                // min == max; one time in three the two zeros: -0.0 and 0.0 are the same number, so the range is empty as well
                if rng.chance(1, 3) { m.insert(ys("init"), yf(*rng.pick(&[0.0, -0.0]))); m.insert(ys("min"), yf(-0.0)); m.insert(ys("max"), yf(0.0)); return "min-not-below-max"; }
                let v = m.get("init").and_then(|x| x.as_f64()).unwrap_or(0.0); m.insert(ys("min"), yf(v)); m.insert(ys("max"), yf(v)); return "min-not-below-max";
            }
            ("int", 6) => { let v = m.get("init").and_then(|x| x.as_i64()).unwrap_or(0); if v > i64::MIN + 2 { m.insert(ys("max"), yi(v - 1)); m.remove("min"); return "init-above-max"; } }
            ("int", 7) => { let v = m.get("init").and_then(|x| x.as_i64()).unwrap_or(0); m.insert(ys("min"), yi(v)); m.insert(ys("max"), yi(v)); return "min-not-below-max"; }
            ("int", 8) => { m.insert(ys("init"), yf(0.5)); return "int-init-not-integer"; }
            ("bool", 2) => { m.remove("init"); return "missing-init"; }
            ("bool", 3) => { m.insert(ys("init"), ys("yes please")); return "bool-init-wrong-type"; }
            ("enum", 2) => { let first = m.get("values").and_then(|v| v.as_sequence()).and_then(|s| s.first().cloned()).unwrap_or(ys("a")); m.insert(ys("values"), Y::Sequence(vec![first.clone()])); m.insert(ys("init"), first); return "enum-one-value"; }
            ("enum", 3) => {
                // a repeated value anywhere in the list (adjacent or not); `init` stays a listed value
                let mut vals: Vec<Y> = m.get("values").and_then(|v| v.as_sequence()).cloned().unwrap_or_else(|| vec![ys("a"), ys("b")]);
                if vals.is_empty() { vals.push(ys("a")); }
                let dup = vals[rng.below(vals.len() as u64) as usize].clone();
                let pos = rng.below(vals.len() as u64 + 1) as usize;
                vals.insert(pos, dup);
                m.insert(ys("values"), Y::Sequence(vals));
                return "enum-duplicate-values";
            }
            ("enum", 4) => { m.insert(ys("init"), ys(*rng.pick(&["zzUnknown", "init", "type", "values"]))); return "enum-unknown-init"; }
            ("enum", 5) => { if let Some(Y::Sequence(s)) = m.get_mut("values") { s.push(yi(3)); return "enum-item-not-string"; } }
            ("enum", 6) => { m.insert(ys("values"), ys("a, b")); return "enum-values-not-sequence"; }
            ("array", 2) => { m.insert(ys("size"), yu(rng.below(2))); return "array-size-below-2"; }
            ("array", 3) | ("anon map", 3) | ("optional", 3) => { m.remove("valueType"); return "missing-valueType"; }
            ("array", 4) => { m.insert(ys("size"), yi(-3)); return "array-size-negative"; }
            ("anon map", 2) => { m.insert(ys("minSize"), yu(4)); m.insert(ys("maxSize"), yu(4)); m.insert(ys("initSize"), yu(4)); return "map-min-not-below-max"; }
            ("anon map", 4) => { m.insert(ys("maxSize"), yu(0)); m.remove("minSize"); m.insert(ys("initSize"), yu(0)); return "map-zero-max"; }
            ("anon map", 5) => { m.insert(ys("maxSize"), yu(3)); m.remove("minSize"); m.insert(ys("initSize"), yu(4)); return "map-init-above-max"; }
            ("anon map", 6) => { m.insert(ys("minSize"), yu(2)); m.remove("maxSize"); m.insert(ys("initSize"), yu(1)); return "map-init-below-min"; }
            ("anon map", 7) => { m.remove("initSize"); return "map-missing-initSize"; }
            ("optional", 2) => { m.remove("initPresent"); return "missing-initPresent"; }
            ("variant", 2) => { m.insert(ys("init"), ys(*rng.pick(&["zzUnknown", "init", "type", "typeDef x", ""]))); return "variant-unknown-init"; }
            ("variant", 3) => {
                let ks: Vec<Y> = m.keys().filter(|k| k.as_str().map(|s| s != "type" && s != "init").unwrap_or(false)).cloned().collect();
                if ks.len() >= 2 { for k in &ks[1..] { m.remove(k); } if let Some(k0) = ks[0].as_str() { m.insert(ys("init"), ys(k0)); } return "variant-one-option"; }
            }
            ("sub", 2) => {
                let ks: Vec<Y> = m.keys().filter(|k| k.as_str().map(|s| s != "type" && !s.starts_with("typeDef")).unwrap_or(true)).cloned().collect();
                for k in ks { m.remove(&k); }
                return "empty-sub";
            }
            ("sub", 3) => { m.insert(ys(&format!("typeDef {}", rng.pick(&["real", "int", "anon map", "const", "sub"]))), Y::Mapping({ let mut x = Mapping::new(); x.insert(ys("type"), ys("const")); x })); return "typedef-builtin-name"; }
            ("sub", 4) => { m.insert(ys("zzMember"), Y::Mapping({ let mut x = Mapping::new(); x.insert(ys("type"), ys("zzNoSuchType")); x })); return "unknown-type-name"; }
            ("sub", 5) => { m.insert(ys("zzMember"), yi(5)); return "member-not-map"; }
            (_, 9) if ty != "sub" => { m.insert(ys("type"), ys("zzNoSuchType")); return "unknown-type-name"; }
            (_, 10) => { m.insert(ys("type"), yi(3)); return "type-not-string"; }
            _ => {}
        }
    }
    *doc = Y::Sequence(vec![]);
    "root-not-map"
}

fn soup(rng: &mut Rng, depth: u32) -> Y {
    const KEYS: &[&str] = &["type", "init", "scale", "min", "max", "size", "valueType", "initSize", "minSize", "maxSize", "values", "initPresent", "typeDef T", "typeDefault", "typeDef", "a", "b"];
    const TYPES: &[&str] = &["real", "int", "bool", "sub", "array", "anon map", "variant", "enum", "optional", "const", "T", "nope"];
    let mut m = Mapping::new();
    for _ in 0..rng.below(6) {
        let k = *rng.pick(KEYS);
        let v = match rng.below(9) {
            0 => ys(*rng.pick(TYPES)), 1 => yi(rng.range(-3, 6)), 2 => yf(gen_float(rng)), 3 => Y::Bool(rng.chance(1, 2)),
            4 => Y::Sequence((0..rng.below(4)).map(|_| ys(*rng.pick(&["a", "b", "c"]))).collect()),
            5 if depth < 3 => soup(rng, depth + 1), 6 => Y::Null, 7 => ys(*rng.pick(STRINGS)), _ => yu(rng.below(5)),
        };
        m.insert(if k == "type" { ys("type") } else { ys(k) }, if k == "type" && rng.chance(3, 4) { ys(*rng.pick(TYPES)) } else { v });
    }
    Y::Mapping(m)
}

fn gen_float(rng: &mut Rng) -> f64 { *rng.pick(&[0.0, 1.0, -1.0, 0.5, 2.5, 1e100, -1e100, 1e-100]) }

pub fn enc_yaml(y: &Y) -> J {
    match y {
        Y::Null => json!("n"),
        Y::Bool(b) => json!({"b": b}),
        Y::Number(n) => json!({"num": {"f": n.as_f64().map(f64_model), "i": n.as_i64(), "u": n.as_u64()}}),
        Y::String(s) => json!({"s": s}),
        Y::Sequence(s) => json!({"a": s.iter().map(enc_yaml).collect::<Vec<_>>()}),
        Y::Mapping(m) => json!({"m": m.iter().map(|(k, v)| json!([enc_yaml(k), enc_yaml(v)])).collect::<Vec<_>>()}),
        Y::Tagged(t) => json!({"t": [t.tag.to_string(), enc_yaml(&t.value)]}),
    }
}

pub fn gen_case(rng: &mut Rng, thorough: bool) -> J {
    let mut cfg = if thorough { GenCfg::thorough() } else { GenCfg::quick() };
    cfg.max_depth = cfg.max_depth.min(5);
    let kind = rng.below(10);
    let (doc, label, expect, rule): (Y, &str, Option<spec::Node>, Option<&'static str>) = if kind < 5 {
        // a well-formed spec, rendered with hoisting/shadowing: must be accepted as exactly that spec
        let mut s = gen_spec(rng, &cfg, 0);
        let mut guard = 0;
        while !keys_ok(&s) && guard < 50 { s = gen_spec(rng, &cfg, 0); guard += 1; }
        if !keys_ok(&s) { s = spec::Node::Const; }
        // the root must be a mapping; hoisting only happens inside subs, so wrap half of the roots in a sub
        if rng.chance(1, 2) && !matches!(s, spec::Node::Sub { .. }) {
            let mut map = rustc_hash::FxHashMap::default();
            map.insert("root".to_string(), Box::new(s));
            if rng.chance(1, 2) { map.insert("other".to_string(), Box::new(gen_spec(rng, &GenCfg { plain_keys: true, ..cfg.clone() }, cfg.max_depth - 1))); }
            s = spec::Node::Sub { map };
        }
        let doc = render(rng, &s, &Vec::new(), 0);
        (doc, "valid", Some(s), None)
    } else if kind < 8 {
        let s = gen_spec(rng, &GenCfg { plain_keys: true, ..cfg.clone() }, 0);
        let mut doc = render(rng, &s, &Vec::new(), 0);
        let rule = violate(rng, &mut doc);
        (doc, "violation", None, Some(rule))
    } else if kind < 9 {
        (soup(rng, 0), "soup", None, None)
    } else {
        // keyword-like member names: `typeDefault`, `typeDef`, `typeDefx` are ordinary members
        let mut map = rustc_hash::FxHashMap::default();
        for k in ["typeDefault", "typeDef", "typeDefx", "typ", "types"] { if rng.chance(1, 2) { map.insert(k.to_string(), Box::new(gen_spec(rng, &GenCfg { plain_keys: true, ..cfg.clone() }, cfg.max_depth))); } }
        map.insert("x".to_string(), Box::new(spec::Node::Bool { init: false }));
        let s = spec::Node::Sub { map };
        (render(rng, &s, &Vec::new(), 0), "keyword-like-members", Some(s), None)
    };
    let text = serde_yaml::to_string(&doc).unwrap_or_default();
    let reparsed: Result<Y, _> = serde_yaml::from_str(&text);
    let imp = std::panic::catch_unwind(|| spec_util::from_yaml_str(&text));
    let imp_j = match imp {
        Err(_) => json!({"panic": true}),
        Ok(Err(e)) => json!({"rej": format!("{:?}", e).split(|c: char| !c.is_alphanumeric()).next().unwrap_or("").to_string()}),
        Ok(Ok(s)) => {
            let iv = std::panic::catch_unwind(|| s.initial_value());
            let mut o = json!({"ok": enc_spec(&s.0), "init": iv.as_ref().ok().map(|v| enc_value(&v.0))});
            // a document that broke a rule on purpose (or an attribute soup) and was accepted all the same: what do the
            // operators make of that parameter space?  A few mutations at probability 1 from the initial value; the
            // driver evaluates conformance on every step (C01 quantifies over every ACCEPTED spec)
            if label != "valid" && label != "keyword-like-members" {
                if let Ok(v0) = iv {
                    let mut walk: Vec<J> = Vec::new();
                    let mut cur = v0;
                    let mut path_ctx = cambrian::verif_hooks::PathContext::default();
                    path_ctx.add_nodes_for(&cur);
                    let mut std_rng = <rand::rngs::StdRng as rand::SeedableRng>::seed_from_u64(rng.next());
                    let mp = cambrian::meta::MutationParams { mutation_prob: 1.0, mutation_scale: 1.0 };
                    for _ in 0..8 {
                        let r = std::panic::catch_unwind(std::panic::AssertUnwindSafe(|| cambrian::mutation::mutate(&s, &cur, &mp, &mut path_ctx, &mut std_rng)));
                        match r {
                            Ok(v) => { let e = enc_value(&v.0); if e.to_string().len() > 20_000 { break; } walk.push(e); cur = v; }
                            Err(_) => { walk.push(json!({"panic": true})); break; }
                        }
                    }
                    o["walk"] = J::Array(walk);
                }
            }
            o
        }
    };
    let mut line = json!({"mode": "spec", "kind": label, "impl": imp_j, "text": if text.len() < 3000 { J::String(text.clone()) } else { J::Null }});
    match reparsed { Ok(y) => { line["yaml"] = enc_yaml(&y); } Err(_) => { line["yamlError"] = json!(true); } }
    if let Some(e) = expect { line["expect"] = enc_spec(&e); }
    if let Some(r) = rule { line["rule"] = json!(r); }
    line
}
