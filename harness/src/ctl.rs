//! K-ctl: the real `async_launch::launch` under a harness-dictated schedule.
//!
//! The harness objective function parks every evaluation on a oneshot; the scheduler (this file) decides which
//! evaluation ends when and how (accept / reject / fail / non-finite), whether several end in the same poll
//! (bursts), when `Terminate` is sent and whether an evaluation honours the abort broadcast at once or ignores
//! it.  Everything runs on one current-thread runtime and the controller future is polled inline, so the schedule
//! is exactly what the script says.  What the controller did is read off its observable behaviour only:
//! `evaluate()` calls (seed, id, value), the `DetailedReportItem` stream (processing order), the abort
//! broadcast, the returned result.
use crate::util::*;
use async_trait::async_trait;
use cambrian::error::Error;
use cambrian::message::Command;
use cambrian::meta::{AlgoConfig, AsyncObjectiveFunction};
use cambrian::{async_launch, spec_util};
use futures::channel::{mpsc, oneshot};
use futures::SinkExt;
use serde_json::{json, Value as J};
use std::collections::HashMap;
use std::sync::{Arc, Mutex};

#[derive(Debug, Clone)]
pub enum Outcome { Acc(f64), Rej, Fail(u64), NonFinite(f64) }

struct Slot { seed: u64, id: usize, tx: Option<oneshot::Sender<Outcome>> }

#[derive(Default)]
pub struct Shared {
    slots: Vec<Slot>,
    starts: Vec<(u64, usize, String)>,
    self_rej: Vec<u64>,
    abort_probe: Option<async_broadcast::Receiver<()>>,
    abort_seen_any: bool,
    inflight_ids: Vec<usize>,
    max_inflight: usize,
    dup_inflight: bool,
    ignore_abort_permille: u64,
    drop_abort: bool,
    mode_rng: Option<Rng>,
    // the trace gathered so far (so a watchdog can dump it when the controller hangs)
    pub header: J,
    pub rounds: Vec<J>,
    pub phase: String,
}

struct Obj { sh: Arc<Mutex<Shared>> }

#[async_trait]
impl AsyncObjectiveFunction for Obj {
    async fn evaluate(&self, value: J, mut abort: async_broadcast::Receiver<()>, seed: u64, id: usize) -> Result<Option<f64>, Error> {
        let (tx, mut rx) = oneshot::channel();
        let ignore = {
            let mut sh = self.sh.lock().unwrap();
            sh.starts.push((seed, id, canon(&value)));
            sh.slots.push(Slot { seed, id, tx: Some(tx) });
            if sh.inflight_ids.contains(&id) { sh.dup_inflight = true; }
            sh.inflight_ids.push(id);
            sh.max_inflight = sh.max_inflight.max(sh.inflight_ids.len());
            if sh.abort_probe.is_none() && !sh.drop_abort { sh.abort_probe = Some(abort.clone()); }
            let p = sh.ignore_abort_permille;
            (sh.mode_rng.as_mut().map(|r| r.below(1000) < p).unwrap_or(false), sh.drop_abort)
        };
        let (ignore, drop_abort) = ignore;
        if drop_abort {
            drop(abort);
            let out = (&mut rx).await.unwrap();
            {
                let mut sh = self.sh.lock().unwrap();
                if let Some(p) = sh.inflight_ids.iter().position(|x| *x == id) { sh.inflight_ids.remove(p); }
            }
            return match out {
                Outcome::Acc(x) => Ok(Some(x)),
                Outcome::Rej => Ok(None),
                Outcome::Fail(k) => Err(Error::Io(std::io::Error::new(std::io::ErrorKind::Other, format!("cvh-fail-{k}")))),
                Outcome::NonFinite(x) => Ok(Some(x)),
            };
        }
        let out = tokio::select! {
            biased;
            o = &mut rx => o.unwrap(),
            _ = abort.recv() => {
                let honoured = {
                    let mut sh = self.sh.lock().unwrap();
                    sh.abort_seen_any = true;
                    if !ignore {
                        sh.slots.retain(|s| s.seed != seed);
                        sh.self_rej.push(seed);
                        if let Some(p) = sh.inflight_ids.iter().position(|x| *x == id) { sh.inflight_ids.remove(p); }
                    }
                    !ignore
                };
                if honoured { return Ok(None); }
                (&mut rx).await.unwrap()
            }
        };
        {
            let mut sh = self.sh.lock().unwrap();
            if let Some(p) = sh.inflight_ids.iter().position(|x| *x == id) { sh.inflight_ids.remove(p); }
        }
        match out {
            Outcome::Acc(x) => Ok(Some(x)),
            Outcome::Rej => Ok(None),
            Outcome::Fail(k) => Err(Error::Io(std::io::Error::new(std::io::ErrorKind::Other, format!("cvh-fail-{k}")))),
            Outcome::NonFinite(x) => Ok(Some(x)),
        }
    }
}

#[derive(Debug, Clone)]
pub struct Scenario {
    pub nc: usize,
    pub max_eval: Option<usize>,
    pub target: Option<f64>,
    pub sample_size: usize,
    pub spec_yaml: String,
    pub guess: Option<J>,
    pub script_seed: u64,
    pub term_round: Option<usize>,
    pub fail_permille: u64,
    pub rej_permille: u64,
    pub nonfinite_permille: u64,
    pub burst_permille: u64,
    pub ignore_abort_permille: u64,
    pub pool: u8,
    pub max_rounds: usize,
    /// failures are scripted only once the termination request has been sent
    pub fail_after_term_only: bool,
    /// twin runs only (never generated, never serialised): scripted completions with these seeds are NOT released
    pub withhold: Vec<u64>,
    /// paced twin only: the completions to deliver, one per round, in this order (None = the script decides)
    pub forced: Option<Vec<(u64, Outcome)>>,
    /// > 0: not a scripted scenario but one LONG run of this many evaluations (seeds / ids over a long history)
    pub long_evals: usize,
    /// every evaluation drops its abort receiver at once (an objective function that cannot be aborted and does not
    /// keep the channel): nobody listens to the abort broadcast, and the harness keeps no receiver of its own either
    pub drop_abort: bool,
}

const SPECS: &[(&str, &[&str])] = &[
    // a root optional: `null` is a valid explicit guess (the absent value) and differs from the spec's initial value
    ("type: optional\ninitPresent: true\nvalueType:\n  type: real\n  init: 1.0\n  scale: 0.5\n", &["null", "null", "0.25", "\"x\""]),
    ("type: int\ninit: 0\nscale: 3\n", &["1", "-7", "\"x\"", "1.5"]),
    ("type: real\ninit: 0.5\nscale: 0.1\nmin: 0\nmax: 1\n", &["0.25", "1.0", "2.0", "null"]),
    // a root enum: a JSON string IS the encoding of its values (also strings that look like other JSON)
    ("type: enum\nvalues: [red, green, \"true\", \"7\", \"{}\"]\ninit: red\n", &["\"green\"", "\"true\"", "\"7\"", "\"{}\"", "\"purple\"", "7"]),
    ("a:\n  type: bool\n  init: true\nb:\n  type: int\n  init: 2\n  scale: 1\n  min: 0\n  max: 9\n", &["{\"a\":false,\"b\":3}", "{\"a\":false}", "{\"a\":true,\"b\":10}", "{\"a\":true,\"b\":0,\"c\":1}"]),
];

pub fn gen_scenario(rng: &mut Rng, thorough: bool) -> Scenario {
    if rng.chance(1, 12) {
        // long histories: far more accepted results than the population cap, so eviction and (at sample size > 1)
        // re-evaluation happen; no failures, few rejections
        let nc = 1 + rng.below(4) as usize;
        let rounds = 250 + rng.below(if thorough { 3000 } else { 300 }) as usize;
        let (spec, _) = SPECS[rng.below(SPECS.len() as u64) as usize];
        return Scenario {
            nc, max_eval: if rng.chance(1, 2) { None } else { Some(150 + rng.below(300) as usize) },
            target: None, sample_size: 1 + rng.below(3) as usize, spec_yaml: spec.to_string(), guess: None,
            script_seed: rng.next(), term_round: None, fail_permille: 0, rej_permille: *rng.pick(&[0, 50, 200]),
            nonfinite_permille: 0, burst_permille: *rng.pick(&[0, 300]), ignore_abort_permille: *rng.pick(&[0, 1000]),
            pool: rng.below(8) as u8, max_rounds: rounds, fail_after_term_only: false, withhold: vec![], forced: None, long_evals: 0, drop_abort: false,
        };
    }
    if rng.chance(1, 14) {
        // sampling with a target: the best-seen objective is a MEAN that crosses the target although the last
        // sample alone may not; needs a population of 20 before re-evaluation starts
        let ss = 2 + rng.below(3) as usize;
        let (spec, _) = SPECS[rng.below(SPECS.len() as u64) as usize];
        return Scenario {
            nc: 1 + rng.below(3) as usize, max_eval: None, target: Some(*rng.pick(&[-3.0, -2.0, -4.5])), sample_size: ss,
            spec_yaml: spec.to_string(), guess: None, script_seed: rng.next(), term_round: None, fail_permille: 0,
            rej_permille: *rng.pick(&[0, 50]), nonfinite_permille: 0, burst_permille: *rng.pick(&[0, 300]),
            ignore_abort_permille: 0, pool: 4, max_rounds: if thorough { 1500 } else { 500 }, fail_after_term_only: false, withhold: vec![], forced: None, long_evals: 0, drop_abort: false,
        };
    }
    if rng.chance(1, 16) {
        // a termination request after some accepted results, then evaluations that ignore the abort and FAIL while
        // the run drains: the best result so far must still be what is returned
        let (spec, _) = SPECS[rng.below(SPECS.len() as u64) as usize];
        return Scenario {
            nc: 2 + rng.below(5) as usize, max_eval: None, target: None, sample_size: 1, spec_yaml: spec.to_string(), guess: None,
            script_seed: rng.next(), term_round: Some(3 + rng.below(12) as usize), fail_permille: *rng.pick(&[300, 700]), rej_permille: 100,
            nonfinite_permille: *rng.pick(&[0, 200]), burst_permille: *rng.pick(&[0, 300]), ignore_abort_permille: 1000, pool: rng.below(8) as u8,
            max_rounds: 80, fail_after_term_only: true, withhold: vec![], forced: None, long_evals: 0, drop_abort: false,
        };
    }
    let nc = 1 + rng.below(8) as usize;
    let nmax = if thorough { 400 } else { 40 };
    let max_eval = match rng.below(10) {
        0 => None,
        1 => Some(0),
        2 => Some(rng.below(nc as u64 + 1) as usize),
        3..=5 => Some(rng.below(12) as usize),
        _ => Some(rng.below(nmax) as usize),
    };
    let pool = rng.below(9) as u8;
    let sample_size = match rng.below(10) { 0..=4 => 1, 5..=6 => 2, 7..=8 => 3, _ => 4 };
    let target = if rng.chance(1, 3) || pool == 8 {
        Some(match pool { 8 => *rng.pick(&[0.0, 1.0, 1.5, -2.0, 3.25, 1e-300]), 0 | 4 | 5 | 6 | 7 => rng.range(-6, 6) as f64, 1 => (rng.range(-3, 3) as f64) * 1e299, 2 => -(rng.below(60) as f64), _ => rng.below(60) as f64 })
    } else { None };
    // an infinite target: +inf is reached by the first accepted result, -inf never
    let target = if target.is_some() && rng.chance(1, 8) { Some(if rng.chance(2, 3) { f64::INFINITY } else { f64::NEG_INFINITY }) } else { target };
    let (spec, guesses) = SPECS[rng.below(SPECS.len() as u64) as usize];
    let guess = if rng.chance(1, 4) { Some(serde_json::from_str(*rng.pick(guesses)).unwrap()) } else { None };
    let max_rounds = if thorough { 2000 } else { 60 + rng.below(200) as usize };
    let term_round = if rng.chance(2, 5) { Some(rng.below(if max_eval.is_none() { 40 } else { 30 }) as usize) } else if max_eval.is_none() && target.is_none() { Some(rng.below(max_rounds as u64) as usize) } else { None };
    Scenario {
        nc, max_eval, target, sample_size,
        spec_yaml: spec.to_string(), guess,
        script_seed: rng.next(),
        term_round,
        fail_permille: *rng.pick(&[0, 0, 0, 20, 100]),
        rej_permille: *rng.pick(&[0, 100, 300, 900]),
        nonfinite_permille: *rng.pick(&[0, 0, 0, 10, 50]),
        burst_permille: *rng.pick(&[0, 200, 600]),
        ignore_abort_permille: *rng.pick(&[0, 0, 500, 1000]),
        pool, max_rounds, fail_after_term_only: false, withhold: vec![], forced: None, long_evals: 0, drop_abort: rng.chance(1, 8),
    }
}

pub fn scenario_json(sc: &Scenario) -> J {
    json!({
        "nc": sc.nc, "maxEval": sc.max_eval, "target": sc.target.map(f64_model),
        "targetBits": sc.target.map(|t| t.to_bits()), "sampleSize": sc.sample_size, "spec": sc.spec_yaml,
        "guess": sc.guess, "hasGuess": sc.guess.is_some(), "scriptSeed": sc.script_seed, "termRound": sc.term_round,
        "failPermille": sc.fail_permille, "rejPermille": sc.rej_permille, "nonfinitePermille": sc.nonfinite_permille,
        "burstPermille": sc.burst_permille, "ignoreAbortPermille": sc.ignore_abort_permille, "pool": sc.pool,
        "maxRounds": sc.max_rounds, "failAfterTermOnly": sc.fail_after_term_only, "longEvals": sc.long_evals, "dropAbort": sc.drop_abort,
    })
}

pub fn scenario_from_json(j: &J) -> Scenario {
    let u = |k: &str| j[k].as_u64().unwrap_or(0);
    Scenario {
        nc: u("nc") as usize,
        max_eval: j["maxEval"].as_u64().map(|x| x as usize),
        target: j["targetBits"].as_u64().map(f64::from_bits),
        sample_size: u("sampleSize") as usize,
        spec_yaml: j["spec"].as_str().unwrap().to_string(),
        guess: if j["hasGuess"].as_bool().unwrap_or(false) { Some(j["guess"].clone()) } else { None },
        script_seed: u("scriptSeed"),
        term_round: j["termRound"].as_u64().map(|x| x as usize),
        fail_permille: u("failPermille"), rej_permille: u("rejPermille"), nonfinite_permille: u("nonfinitePermille"),
        burst_permille: u("burstPermille"), ignore_abort_permille: u("ignoreAbortPermille"), pool: u("pool") as u8,
        max_rounds: u("maxRounds") as usize,
        fail_after_term_only: j["failAfterTermOnly"].as_bool().unwrap_or(false),
        withhold: vec![], forced: None, long_evals: u("longEvals") as usize, drop_abort: j["dropAbort"].as_bool().unwrap_or(false),
    }
}

fn gen_value(rng: &mut Rng, pool: u8, counter: u64) -> f64 {
    match pool {
        0 => { let k = rng.range(-5, 5); if k == 0 && rng.chance(1, 2) { -0.0 } else { k as f64 } }
        1 => { let m = rng.range(-1000, 1000) as f64 / 100.0; let e = *rng.pick(&[-300.0, -10.0, 0.0, 10.0, 299.0]); m * 10f64.powf(e) }
        2 => -(counter as f64),
        3 => counter as f64,
        5 => 1.0,                                                       // plateau: every result ties
        6 => if rng.chance(9, 10) { 1.0 } else { 2.0 + counter as f64 }, // plateau with occasional worse results
        // gradual underflow: subnormal and tiny objective values (accepted like any other finite value), signed zeros
        // pool 8 is handled by the caller (values one or a few ulps around the target)
        7 => *rng.pick(&[5e-324, -5e-324, 1e-310, -3e-320, 2.5e-308, -2.5e-308, f64::MIN_POSITIVE, 1e-300, -1e-300, 0.0, -0.0, 1.0, -1.0]),
        _ => rng.range(-50, 50) as f64 / 8.0,
    }
}

fn err_code(e: &Error) -> J {
    let s = e.to_string();
    match e {
        Error::ObjFuncValMustBeFinite => json!({"err": 0}),
        Error::NoIndividuals => json!("noIndividuals"),
        Error::Io(_) if s.starts_with("cvh-fail-") => json!({"err": s["cvh-fail-".len()..].parse::<u64>().unwrap_or(999_999)}),
        Error::ClientHungUp => json!("clientHungUp"),
        _ => json!({"otherError": s}),
    }
}

/// Runs one scenario.  `sh.rounds` / `sh.header` hold the trace as it grows.
pub fn run_scenario(sc: &Scenario, sh: Arc<Mutex<Shared>>) -> J {
    {
        let mut g = sh.lock().unwrap();
        g.ignore_abort_permille = sc.ignore_abort_permille;
        g.drop_abort = sc.drop_abort;
        g.mode_rng = Some(Rng(sc.script_seed ^ 0xabcdef));
        g.header = scenario_json(sc);
        g.phase = "init".into();
    }
    let sh2 = sh.clone();
    let sc = sc.clone();
    let rt = tokio::runtime::Builder::new_current_thread().enable_all().build().unwrap();
    let ret: J = rt.block_on(async move {
        let spec = spec_util::from_yaml_str(&sc.spec_yaml).unwrap();
        let default_init = canon(&spec.initial_value().to_json());
        let guess_valid = sc.guess.as_ref().map(|g| cambrian::value_util::from_json_value(g, &spec).map(|v| canon(&v.to_json())).ok());
        {
            let mut g = sh2.lock().unwrap();
            g.header["defaultInit"] = json!(default_init);
            // what the model needs to know about the guess: absent / rejected / the value it denotes
            g.header["initV"] = match &guess_valid { None => json!(default_init), Some(Some(v)) => json!(v), Some(None) => J::Null };
        }
        let cfg = AlgoConfig { individual_sample_size: sc.sample_size, num_concurrent: sc.nc };
        let (mut cmd_tx, cmd_rx) = mpsc::channel::<Command>(8);
        let (rep_tx, mut rep_rx) = mpsc::channel(4096);
        let launch = async_launch::launch(spec, Obj { sh: sh2.clone() }, cfg, cmd_rx, rep_tx, sc.max_eval, sc.target, sc.guess.clone());
        tokio::pin!(launch);
        let mut rng = Rng(sc.script_seed);
        let mut result: Option<Result<cambrian::result::FinalReport, Error>> = None;
        let mut pending: HashMap<u64, Outcome> = HashMap::new();   // results released to the controller
        let mut samples: HashMap<usize, Vec<f64>> = HashMap::new(); // accepted results per individual, processing order
        let mut events: Vec<J> = Vec::new();                        // stimuli of the current round that leave no item
        let mut counter = 0u64;
        let mut round = 0usize;
        let mut terminated = 0u32;
        let mut acc_bits: Vec<u64> = Vec::new();   // bit patterns of the accepted values the controller took
        let mut delivered: Vec<J> = Vec::new();    // (seed, outcome) of every completion the controller took, in order
        let mut forced_pos = 0usize;
        let mut released: Vec<u64> = Vec::new();   // accept/reject completions released by the script, in release order
        let mut released_round: HashMap<u64, usize> = HashMap::new();
        let mut held: Vec<Slot> = Vec::new();      // twin run: completions that are withheld stay in flight for ever
        loop {
            // let the controller run until nothing observable changes any more
            let mut quiet = 0;
            let mut last = (0usize, 0usize);
            let mut items: Vec<(usize, u64, Option<f64>)> = Vec::new();
            while quiet < 3 {
                tokio::select! { biased; r = &mut launch, if result.is_none() => { result = Some(r); } _ = tokio::task::yield_now() => {} }
                #[allow(deprecated)]
                while let Ok(Some(item)) = rep_rx.try_next() { items.push((item.individual_id, item.seed, item.obj_func_val)); }
                let now = { let g = sh2.lock().unwrap(); (g.starts.len(), g.slots.len()) };
                if now == last && result.is_some() { break; }
                if now == last { quiet += 1; } else { quiet = 0; last = now; }
            }
            // observations of this round
            let (starts, self_rej, abort_flag, n_slots) = {
                let mut g = sh2.lock().unwrap();
                let starts: Vec<J> = g.starts.drain(..).map(|(s, i, v)| json!([s, i, v])).collect();
                let self_rej: Vec<u64> = g.self_rej.drain(..).collect();
                let mut flag = J::Null;
                let seen_any = g.abort_seen_any;
                if let Some(p) = g.abort_probe.as_mut() {
                    let got = p.try_recv().is_ok();
                    if got { g.abort_seen_any = true; }
                    flag = json!(got || seen_any);
                }
                (starts, self_rej, flag, g.slots.len())
            };
            for s in self_rej { pending.insert(s, Outcome::Rej); }
            // the completions the controller processed, in processing order
            let mut evs: Vec<J> = std::mem::take(&mut events);
            let mut items_j = Vec::new();
            for (id, seed, val) in &items {
                let res = match pending.remove(seed) {
                    Some(Outcome::Acc(x)) => { acc_bits.push(x.to_bits()); delivered.push(json!([seed, x.to_bits()])); let l = samples.entry(*id).or_default(); l.push(x); json!({"acc": [order_code(x), order_code(mean_like_impl(l))]}) }
                    Some(Outcome::Rej) => { delivered.push(json!([seed, "rej"])); samples.remove(id); json!("rej") }
                    other => json!({"unexpectedItem": format!("{other:?}")}),
                };
                evs.push(json!({"k": "c", "seed": seed, "res": res}));
                items_j.push(json!([id, seed, val.map(order_code)]));
            }
            let ret_j = result.as_ref().map(|r| match r {
                Ok(rep) => json!({"ok": {"best": order_code(rep.best_seen.obj_func_val), "value": canon(&rep.best_seen.value),
                                         "acc": rep.num_obj_func_eval_completed, "rej": rep.num_obj_func_eval_rejected}}),
                Err(e) => { if guess_valid == Some(None) && !matches!(e, Error::NoIndividuals | Error::ObjFuncValMustBeFinite | Error::ClientHungUp | Error::Io(_)) { json!("badGuess") } else { err_code(e) } }
            });
            {
                let mut g = sh2.lock().unwrap();
                g.rounds.push(json!({"events": evs, "obs": {"starts": starts, "items": items_j, "abort": abort_flag, "ret": ret_j, "inflight": n_slots}}));
                g.phase = format!("round {round}");
            }
            if result.is_some() { break; }
            if round >= sc.max_rounds && terminated == 0 && sc.forced.is_none() {
                // out of script: end the run with a terminate so that it returns
                cmd_tx.send(Command::Terminate).await.unwrap();
                events.push(json!({"k": "a"}));
                terminated += 1; round += 1; continue;
            }
            if round > sc.max_rounds + 5000 && sc.forced.is_none() { break; }
            if Some(round) == sc.term_round && terminated == 0 {
                cmd_tx.send(Command::Terminate).await.unwrap();
                events.push(json!({"k": "a"}));
                terminated += 1;
                if rng.chance(1, 5) { cmd_tx.send(Command::Terminate).await.unwrap(); }
                round += 1; continue;
            }
            if let Some(forced) = &sc.forced {
                // paced twin: exactly the next completion of the given sequence, alone in its round
                if forced_pos >= forced.len() { sh2.lock().unwrap().rounds.push(json!({"forcedExhausted": true})); break; }
                let (seed, o) = forced[forced_pos].clone();
                forced_pos += 1;
                let mut g = sh2.lock().unwrap();
                match g.slots.iter().position(|s| s.seed == seed) {
                    Some(k) => { let mut slot = g.slots.remove(k); released.push(seed); pending.insert(seed, o.clone()); slot.tx.take().unwrap().send(o).ok(); }
                    None => { g.rounds.push(json!({"forcedMissing": seed})); break; }
                }
                round += 1; continue;
            }
            // choose the next stimulus: one failure alone, or a burst of accept/reject completions
            let n = { sh2.lock().unwrap().slots.len() };
            if n == 0 {
                let mut g = sh2.lock().unwrap();
                g.rounds.push(json!({"stuck": "controller is pending with nothing in flight"}));
                break;
            }
            let width = if rng.below(1000) < sc.burst_permille { 1 + rng.below(n as u64) as usize } else { 1 };
            let mut fail_round = rng.below(1000) < sc.fail_permille + sc.nonfinite_permille;
            if terminated > 0 && fail_round && !sc.fail_after_term_only && rng.chance(1, 2) { fail_round = false; }
            if terminated == 0 && sc.fail_after_term_only { fail_round = false; }
            let take = if fail_round { 1 } else { width };
            for _ in 0..take {
                let mut g = sh2.lock().unwrap();
                if g.slots.is_empty() { break; }
                let k = rng.below(g.slots.len() as u64) as usize;
                let mut slot = g.slots.remove(k);
                counter += 1;
                let o = if fail_round {
                    if rng.below(sc.fail_permille + sc.nonfinite_permille) < sc.fail_permille { Outcome::Fail(1 + counter) }
                    else { Outcome::NonFinite(*rng.pick(&[f64::NAN, f64::INFINITY, f64::NEG_INFINITY])) }
                } else if rng.below(1000) < sc.rej_permille { Outcome::Rej } else if sc.pool == 8 {
                    // within a few ulps of the target, on either side, and the target itself
                    let t = sc.target.filter(|t| t.is_finite()).unwrap_or(0.0);
                    let k = rng.range(-3, 8);
                    let mut x = t;
                    for _ in 0..k.unsigned_abs() { x = if k > 0 { f64::from_bits(if x > 0.0 { x.to_bits() + 1 } else if x < 0.0 { x.to_bits() - 1 } else { 1 }) } else { f64::from_bits(if x > 0.0 { x.to_bits() - 1 } else if x < 0.0 { x.to_bits() + 1 } else { (1u64 << 63) | 1 }) }; }
                    Outcome::Acc(x)
                } else { Outcome::Acc(gen_value(&mut rng, sc.pool, counter)) };
                match &o {
                    Outcome::Fail(k) => events.push(json!({"k": "c", "seed": slot.seed, "res": {"fail": k}})),
                    Outcome::NonFinite(_) => events.push(json!({"k": "c", "seed": slot.seed, "res": {"fail": 0}})),
                    _ => {
                        if sc.withhold.contains(&slot.seed) { held.push(slot); continue; }
                        released.push(slot.seed);
                        released_round.insert(slot.seed, round);
                        pending.insert(slot.seed, o.clone());
                    }
                }
                let _ = slot.id;
                slot.tx.take().unwrap().send(o).ok();
            }
            round += 1;
        }
        // sample size 1: the reported objective value is bit for bit one of the values the objective function returned
        let best_bits_ok = match (&result, sc.sample_size) { (Some(Ok(rep)), 1) => json!(acc_bits.contains(&rep.best_seen.obj_func_val.to_bits())), _ => J::Null };
        let best_text = match &result { Some(Ok(rep)) => json!(format!("{:?}", rep.best_seen.obj_func_val)), _ => J::Null };
        let g = sh2.lock().unwrap();
        // completions that were released (the evaluation had finished) but never taken by the controller
        let undelivered: Vec<u64> = released.iter().filter(|s| pending.contains_key(s)).cloned().collect();
        // ... and among them those that had finished at least one full controller round before the run returned
        // (the controller ran again and again without taking them): [seed, round released, order code of the value]
        let parked: Vec<J> = undelivered.iter().filter(|s| released_round.get(s).map(|r| r + 1 < round).unwrap_or(false))
            .filter_map(|s| match pending.get(s) { Some(Outcome::Acc(x)) => Some(json!([s, released_round[s], order_code(*x)])), _ => None }).collect();
        drop(held);
        json!({"maxInflight": g.max_inflight, "dupInflight": g.dup_inflight, "undelivered": undelivered, "returned": result.is_some(),
               "delivered": delivered, "terminates": terminated, "parked": parked, "lastRound": round, "bestBitsOk": best_bits_ok, "bestText": best_text})
    });
    let g = sh.lock().unwrap();
    let mut line = json!({"mode": "ctl", "cfg": g.header, "rounds": g.rounds, "stats": ret});
    if g.rounds.iter().any(|r| r.get("stuck").is_some()) { line["stuck"] = json!(true); }
    line
}

/// C09: the report is a function of what was DELIVERED.  When a run returned while completions that the script had
/// released were still undelivered, the scenario is run again with exactly those completions withheld (the
/// evaluations simply have not finished yet): the delivered results and their order are the same, so the returned
/// report must be the same.  The second run's return is attached as `twin`.
pub fn run_scenario_twin(sc: &Scenario, sh: Arc<Mutex<Shared>>) -> J {
    if sc.long_evals > 0 { return long_run(sc); }
    let mut line = run_scenario(sc, sh);
    let und: Vec<u64> = line["stats"]["undelivered"].as_array().map(|a| a.iter().filter_map(|x| x.as_u64()).collect()).unwrap_or_default();
    if !und.is_empty() && line["stats"]["returned"] == json!(true) && sc.withhold.is_empty() {
        let mut sc2 = sc.clone();
        sc2.withhold = und.clone();
        let l2 = run_scenario(&sc2, Arc::new(Mutex::new(Shared::default())));
        let last = |l: &J| l["rounds"].as_array().and_then(|r| r.last()).map(|r| r["obs"]["ret"].clone()).unwrap_or(J::Null);
        let items = |l: &J| -> Vec<J> { l["rounds"].as_array().map(|r| r.iter().flat_map(|x| x["obs"]["items"].as_array().cloned().unwrap_or_default()).collect()).unwrap_or_default() };
        line["twin"] = json!({"withheld": und, "retA": last(&line), "retB": last(&l2), "sameDelivered": items(&line) == items(&l2)});
    }
    // paced twin: a run that ended by itself (budget or target; no termination request, no failure) is repeated with
    // the SAME completions in the SAME order, but one per controller round instead of in bursts.  Same inputs, same
    // results in the same order: the evaluations started (ids, seeds, parameter sets) and the report must be the same
    // (evaluations queued in the very last pass may never have begun, so one start sequence may be a prefix of the other).
    let bursty = line["rounds"].as_array().map(|r| r.iter().any(|x| x["obs"]["items"].as_array().map(|i| i.len() > 1).unwrap_or(false))).unwrap_or(false);
    if bursty && sc.forced.is_none() && sc.withhold.is_empty() && line["stats"]["returned"] == json!(true) && line["stats"]["terminates"] == json!(0)
        && sc.fail_permille == 0 && sc.nonfinite_permille == 0 && line.get("stuck").is_none() {
        let seq: Vec<(u64, Outcome)> = line["stats"]["delivered"].as_array().cloned().unwrap_or_default().iter().map(|d| {
            (d[0].as_u64().unwrap(), match d[1].as_u64() { Some(b) => Outcome::Acc(f64::from_bits(b)), None => Outcome::Rej })
        }).collect();
        let mut sc3 = sc.clone();
        sc3.forced = Some(seq);
        sc3.term_round = None;
        let l3 = run_scenario(&sc3, Arc::new(Mutex::new(Shared::default())));
        let last = |l: &J| l["rounds"].as_array().and_then(|r| r.iter().rev().find_map(|r| r.get("obs").map(|o| o["ret"].clone()))).unwrap_or(J::Null);
        let flat = |l: &J, k: &str| -> Vec<J> { l["rounds"].as_array().map(|r| r.iter().flat_map(|x| x["obs"][k].as_array().cloned().unwrap_or_default()).collect()).unwrap_or_default() };
        let (sa, sb) = (flat(&line, "starts"), flat(&l3, "starts"));
        let m = sa.len().min(sb.len());
        let first_diff = (0..m).find(|i| sa[*i] != sb[*i]);
        line["paced"] = json!({"retA": last(&line), "retB": last(&l3), "sameDelivered": flat(&line, "items") == flat(&l3, "items"),
                               "startsAgree": first_diff.is_none(), "firstDiff": first_diff.map(|i| json!({"index": i, "bursts": sa[i], "paced": sb[i]})),
                               "nStarts": [sa.len(), sb.len()], "returnedB": l3["stats"]["returned"]});
    }
    line
}

/// C08 over a LONG history: one run of `long_evals` evaluations (every evaluation completes at once with a value that is
/// a function of its seed, now and then a rejection), recording seed, id and a hash of the parameter set of every
/// evaluation.  Seeds must be pairwise distinct, all evaluations of an id must see one parameter set, and an id is
/// evaluated at most sample-size times - also after tens of thousands of evaluations.
pub fn long_run(sc: &Scenario) -> J {
    use std::hash::{Hash, Hasher};
    struct LongObj { log: Arc<Mutex<Vec<(u64, usize, u64)>>>, rej_permille: u64 }
    #[async_trait]
    impl AsyncObjectiveFunction for LongObj {
        async fn evaluate(&self, value: J, _abort: async_broadcast::Receiver<()>, seed: u64, id: usize) -> Result<Option<f64>, Error> {
            let mut h = std::collections::hash_map::DefaultHasher::new();
            value.to_string().hash(&mut h);
            self.log.lock().unwrap().push((seed, id, h.finish()));
            let mut r = Rng::new(seed ^ 0x5eed);
            if r.below(1000) < self.rej_permille { return Ok(None); }
            Ok(Some(r.range(-1000, 1000) as f64 / 16.0))
        }
    }
    let log = Arc::new(Mutex::new(Vec::new()));
    let (log2, sc2) = (log.clone(), sc.clone());
    let rt = tokio::runtime::Builder::new_current_thread().enable_all().build().unwrap();
    let ret = rt.block_on(async move {
        let spec = spec_util::from_yaml_str(&sc2.spec_yaml).unwrap();
        let cfg = AlgoConfig { individual_sample_size: sc2.sample_size, num_concurrent: sc2.nc };
        let (_cmd_tx, cmd_rx) = mpsc::channel::<Command>(1);
        let (rep_tx, mut rep_rx) = mpsc::channel(1 << 12);
        let launch = async_launch::launch(spec, LongObj { log: log2, rej_permille: sc2.rej_permille }, cfg, cmd_rx, rep_tx, Some(sc2.long_evals), None, None);
        tokio::pin!(launch);
        loop { tokio::select! { r = &mut launch => { break r; } _ = futures::StreamExt::next(&mut rep_rx) => {} } }
    });
    let l = log.lock().unwrap();
    let mut first_of_seed: HashMap<u64, usize> = HashMap::new();
    let mut dup_seed = J::Null;
    let mut by_id: HashMap<usize, (u64, usize)> = HashMap::new();
    let (mut two_values, mut over) = (J::Null, J::Null);
    for (i, (seed, id, h)) in l.iter().enumerate() {
        if let Some(j) = first_of_seed.insert(*seed, i) { if dup_seed.is_null() { dup_seed = json!([seed, j, i]); } }
        let e = by_id.entry(*id).or_insert((*h, 0));
        if e.0 != *h && two_values.is_null() { two_values = json!(id); }
        e.1 += 1;
        if e.1 > sc.sample_size && over.is_null() { over = json!([id, e.1]); }
    }
    let ret_j = match &ret { Ok(r) => json!({"ok": {"acc": r.num_obj_func_eval_completed, "rej": r.num_obj_func_eval_rejected}}), Err(e) => json!({"err": e.to_string()}) };
    json!({"mode": "ctllong", "cfg": scenario_json(sc), "n": l.len(), "dupSeed": dup_seed, "idTwoValues": two_values, "overSampled": over, "ret": ret_j})
}
