pub mod util;
pub mod ctl;
