pub mod util;
pub mod enc;
pub mod gen;
pub mod ctl;
pub mod codec;
pub mod ops;
pub mod specgen;
pub mod proc;
